//! zvt-mirdump: rustc_private driver that dumps `mir_built` of every body of the
//! crate being compiled (plus ADT / impl facts) as "MIR-lite" JSON.
//!
//! Used as RUSTC_WORKSPACE_WRAPPER under `cargo +nightly check`. One file per
//! rustc process is written to $ZVT_MIRDUMP_OUT.
#![feature(rustc_private)]

extern crate rustc_abi;
extern crate rustc_driver;
extern crate rustc_hir;
extern crate rustc_interface;
extern crate rustc_middle;
extern crate rustc_session;
extern crate rustc_span;

use rustc_driver::{Callbacks, Compilation};
use rustc_hir::def::DefKind;
use rustc_hir::intravisit::{self, Visitor};
use rustc_hir::def_id::{DefId, LocalDefId, LOCAL_CRATE};
use rustc_interface::interface::Compiler;
use rustc_middle::mir::{
    self, AggregateKind, AssertKind, BasicBlock, Body, BorrowKind, CastKind, Const, ConstValue,
    Operand, Place, ProjectionElem, Rvalue, StatementKind, TerminatorKind, UnwindAction,
};
use rustc_middle::ty::print::{with_no_trimmed_paths, with_no_visible_paths, with_resolve_crate_name};
use rustc_middle::ty::TypeVisitableExt;
use rustc_middle::ty::{self, GenericArgKind, GenericArgsRef, Instance, Ty, TyCtxt, TypingEnv};
use rustc_span::{ExpnKind, Span};
use std::fmt::Write as _;

// ------------------------------------------------------------------ JSON

enum J {
    Null,
    Bool(bool),
    U(u128),
    I(i128),
    S(String),
    A(Vec<J>),
    O(Vec<(&'static str, J)>),
}

fn s(x: impl Into<String>) -> J {
    J::S(x.into())
}

impl J {
    fn write(&self, out: &mut String) {
        match self {
            J::Null => out.push_str("null"),
            J::Bool(b) => out.push_str(if *b { "true" } else { "false" }),
            J::U(u) => {
                let _ = write!(out, "{}", u);
            }
            J::I(i) => {
                let _ = write!(out, "{}", i);
            }
            J::S(st) => {
                out.push('"');
                for c in st.chars() {
                    match c {
                        '"' => out.push_str("\\\""),
                        '\\' => out.push_str("\\\\"),
                        '\n' => out.push_str("\\n"),
                        '\r' => out.push_str("\\r"),
                        '\t' => out.push_str("\\t"),
                        c if (c as u32) < 0x20 => {
                            let _ = write!(out, "\\u{:04x}", c as u32);
                        }
                        c => out.push(c),
                    }
                }
                out.push('"');
            }
            J::A(v) => {
                out.push('[');
                for (i, x) in v.iter().enumerate() {
                    if i > 0 {
                        out.push(',');
                    }
                    x.write(out);
                }
                out.push(']');
            }
            J::O(v) => {
                out.push('{');
                for (i, (k, x)) in v.iter().enumerate() {
                    if i > 0 {
                        out.push(',');
                    }
                    out.push('"');
                    out.push_str(k);
                    out.push_str("\":");
                    x.write(out);
                }
                out.push('}');
            }
        }
    }
}

// ------------------------------------------------------------------ dumper

struct Cx<'tcx> {
    tcx: TyCtxt<'tcx>,
}

fn path<'tcx>(tcx: TyCtxt<'tcx>, d: DefId) -> String {
    with_resolve_crate_name!(with_no_visible_paths!(with_no_trimmed_paths!(tcx.def_path_str(d))))
}

impl<'tcx> Cx<'tcx> {
    fn ty(&self, t: Ty<'tcx>) -> J {
        self.ty_d(t, 0)
    }

    fn ty_d(&self, t: Ty<'tcx>, depth: usize) -> J {
        let tcx = self.tcx;
        if depth > 12 {
            return J::O(vec![("k", s("deep"))]);
        }
        match t.kind() {
            ty::Bool | ty::Char | ty::Int(_) | ty::Uint(_) | ty::Float(_) | ty::Str | ty::Never => {
                J::O(vec![("k", s("prim")), ("n", s(format!("{}", t)))])
            }
            ty::Adt(def, args) => J::O(vec![
                ("k", s("adt")),
                ("n", s(path(tcx, def.did()))),
                ("a", self.args_d(args, depth + 1)),
            ]),
            ty::Ref(_, inner, m) => J::O(vec![
                ("k", s("ref")),
                ("m", J::Bool(m.is_mut())),
                ("t", self.ty_d(*inner, depth + 1)),
            ]),
            ty::RawPtr(inner, m) => J::O(vec![
                ("k", s("ptr")),
                ("m", J::Bool(m.is_mut())),
                ("t", self.ty_d(*inner, depth + 1)),
            ]),
            ty::Slice(inner) => J::O(vec![("k", s("slice")), ("t", self.ty_d(*inner, depth + 1))]),
            ty::Array(inner, n) => J::O(vec![
                ("k", s("array")),
                ("t", self.ty_d(*inner, depth + 1)),
                ("n", self.ty_const(*n)),
            ]),
            ty::Tuple(ts) => J::O(vec![
                ("k", s("tuple")),
                ("a", J::A(ts.iter().map(|x| self.ty_d(x, depth + 1)).collect())),
            ]),
            ty::FnDef(d, args) => J::O(vec![
                ("k", s("fndef")),
                ("n", s(path(tcx, *d))),
                ("a", self.args_d(args, depth + 1)),
            ]),
            ty::Closure(d, _) => J::O(vec![("k", s("closure")), ("n", s(path(tcx, *d)))]),
            ty::Coroutine(d, _) => J::O(vec![("k", s("coroutine")), ("n", s(path(tcx, *d)))]),
            ty::CoroutineClosure(d, _) => {
                J::O(vec![("k", s("coroutine_closure")), ("n", s(path(tcx, *d)))])
            }
            ty::CoroutineWitness(d, _) => {
                J::O(vec![("k", s("coroutine_witness")), ("n", s(path(tcx, *d)))])
            }
            ty::Param(p) => J::O(vec![("k", s("param")), ("n", s(p.name.as_str()))]),
            ty::Alias(alias) => J::O(vec![
                ("k", s("alias")),
                ("n", s(path(tcx, alias.kind.def_id()))),
                ("a", self.args_d(alias.args, depth + 1)),
            ]),
            ty::Dynamic(preds, _) => {
                let n = match preds.principal_def_id() {
                    Some(d) => path(tcx, d),
                    None => String::new(),
                };
                let mut v = vec![("k", s("dyn")), ("n", s(n))];
                if let Some(p) = preds.principal() {
                    let p = p.skip_binder();
                    v.push(("a", self.args_d(p.args, depth + 1)));
                }
                // projection bounds (e.g. Stream<Item = X>)
                let mut projs = vec![];
                for pb in preds.projection_bounds() {
                    let pb = pb.skip_binder();
                    let term = match pb.term.kind() {
                        ty::TermKind::Ty(t) => self.ty_d(t, depth + 1),
                        ty::TermKind::Const(c) => self.ty_const(c),
                    };
                    projs.push(J::O(vec![("n", s(path(tcx, pb.def_id))), ("t", term)]));
                }
                v.push(("proj", J::A(projs)));
                J::O(v)
            }
            ty::FnPtr(..) => J::O(vec![("k", s("fnptr")), ("s", s(format!("{}", t)))]),
            ty::Foreign(d) => J::O(vec![("k", s("foreign")), ("n", s(path(tcx, *d)))]),
            _ => J::O(vec![
                ("k", s("other")),
                ("s", s(with_no_trimmed_paths!(format!("{:?}", t)))),
            ]),
        }
    }

    fn ty_const(&self, c: ty::Const<'tcx>) -> J {
        match c.kind() {
            ty::ConstKind::Param(p) => J::O(vec![("k", s("constparam")), ("n", s(p.name.as_str()))]),
            ty::ConstKind::Value(v) => {
                if let Some(si) = v.try_to_leaf() {
                    J::O(vec![("k", s("const")), ("v", J::U(si.to_bits_unchecked()))])
                } else {
                    J::O(vec![("k", s("const")), ("s", s(format!("{:?}", c)))])
                }
            }
            _ => J::O(vec![("k", s("const")), ("s", s(format!("{:?}", c)))]),
        }
    }

    fn args(&self, args: GenericArgsRef<'tcx>) -> J {
        self.args_d(args, 0)
    }

    fn args_d(&self, args: GenericArgsRef<'tcx>, depth: usize) -> J {
        let mut v = vec![];
        for a in args.iter() {
            match a.kind() {
                GenericArgKind::Type(t) => v.push(self.ty_d(t, depth)),
                GenericArgKind::Const(c) => v.push(self.ty_const(c)),
                GenericArgKind::Lifetime(_) => {}
            }
        }
        J::A(v)
    }

    fn span(&self, sp: Span) -> Vec<(&'static str, J)> {
        let sm = self.tcx.sess.source_map();
        let mut v = vec![];
        let root = sp.source_callsite();
        let loc = sm.lookup_char_pos(root.lo());
        let fname = match &loc.file.name {
            rustc_span::FileName::Real(r) => match r.local_path() {
                Some(p) => p.display().to_string(),
                None => format!("{:?}", r),
            },
            other => format!("{:?}", other),
        };
        v.push(("sp", s(format!("{}:{}:{}", fname, loc.line, loc.col.0 + 1))));
        if sp.from_expansion() {
            // chain of macro names, innermost first
            let mut names = vec![];
            let mut cur = sp;
            let mut guard = 0;
            while cur.from_expansion() && guard < 32 {
                let data = cur.ctxt().outer_expn_data();
                match data.kind {
                    ExpnKind::Macro(_, name) => names.push(name.to_string()),
                    ExpnKind::Desugaring(k) => names.push(format!("desugar:{:?}", k)),
                    ExpnKind::AstPass(k) => names.push(format!("astpass:{:?}", k)),
                    ExpnKind::Root => {}
                }
                cur = data.call_site;
                guard += 1;
            }
            v.push(("x", s(names.join(">"))));
        }
        v
    }

    fn place(&self, body: &Body<'tcx>, p: &Place<'tcx>) -> J {
        let tcx = self.tcx;
        let mut projs = vec![];
        for (i, elem) in p.projection.iter().enumerate() {
            let j = match elem {
                ProjectionElem::Deref => s("deref"),
                ProjectionElem::Field(f, fty) => {
                    let base =
                        Place::ty_from(p.local, &p.projection[..i], &body.local_decls, tcx);
                    let mut name = None;
                    if let ty::Adt(def, _) = base.ty.kind() {
                        let vi = match base.variant_index {
                            Some(v) => Some(v),
                            None if def.is_struct() || def.is_union() => {
                                Some(rustc_abi::FIRST_VARIANT)
                            }
                            None => None,
                        };
                        if let Some(vi) = vi {
                            if let Some(fd) = def.variant(vi).fields.get(f) {
                                name = Some(fd.name.to_string());
                            }
                        }
                    }
                    let mut o = vec![("f", J::U(f.as_u32() as u128))];
                    if let Some(n) = name {
                        o.push(("n", s(n)));
                    }
                    o.push(("ty", self.ty(fty)));
                    J::O(o)
                }
                ProjectionElem::Index(l) => J::O(vec![("idx", J::U(l.as_u32() as u128))]),
                ProjectionElem::ConstantIndex { offset, min_length, from_end } => J::O(vec![
                    ("cidx", J::U(offset as u128)),
                    ("min", J::U(min_length as u128)),
                    ("from_end", J::Bool(from_end)),
                ]),
                ProjectionElem::Subslice { from, to, from_end } => J::O(vec![
                    ("sub_from", J::U(from as u128)),
                    ("sub_to", J::U(to as u128)),
                    ("from_end", J::Bool(from_end)),
                ]),
                ProjectionElem::Downcast(name, vi) => {
                    let mut o = vec![("dc", J::U(vi.as_u32() as u128))];
                    if let Some(n) = name {
                        o.push(("n", s(n.to_string())));
                    }
                    J::O(o)
                }
                ProjectionElem::OpaqueCast(_) => s("opaque"),
                _ => s("otherproj"),
            };
            projs.push(j);
        }
        J::O(vec![("l", J::U(p.local.as_u32() as u128)), ("p", J::A(projs))])
    }

    fn const_val(&self, owner: LocalDefId, c: &Const<'tcx>) -> J {
        let tcx = self.tcx;
        let t = c.ty();
        let mut o = vec![("ty", self.ty(t))];
        if let ty::FnDef(d, args) = t.kind() {
            o.push(("fn", self.fn_ref(owner, *d, args)));
            return J::O(o);
        }
        let env = TypingEnv::non_body_analysis(tcx, owner);
        // Do not try to evaluate constants that still mention generic parameters.
        let evaluable = match c {
            Const::Val(..) => true,
            Const::Ty(_, tc) => matches!(tc.kind(), ty::ConstKind::Value(_)),
            Const::Unevaluated(u, _) => !u.args.iter().any(|a| match a.kind() {
                GenericArgKind::Type(t) => t.has_param(),
                GenericArgKind::Const(c) => c.has_param(),
                GenericArgKind::Lifetime(_) => false,
            }),
        };
        if let Const::Ty(_, tc) = c {
            if let ty::ConstKind::Param(p) = tc.kind() {
                o.push(("constparam", s(p.name.as_str())));
                return J::O(o);
            }
        }
        if let Const::Unevaluated(u, _) = c {
            o.push(("uneval", s(path(tcx, u.def))));
            o.push(("uneval_args", self.args(u.args)));
            if let Some(p) = u.promoted {
                o.push(("promoted", J::U(p.as_u32() as u128)));
            }
        }
        if !evaluable {
            return J::O(o);
        }
        // Promoteds of this very body are not evaluable before borrowck; skip them.
        if let Const::Unevaluated(u, _) = c {
            if u.promoted.is_some() {
                return J::O(o);
            }
        }
        match c.eval(tcx, env, rustc_span::DUMMY_SP) {
            Ok(val) => match val {
                ConstValue::Scalar(sc) => {
                    if let Some(si) = sc.try_to_scalar_int().ok() {
                        let bits = si.to_bits_unchecked();
                        if t.is_signed() {
                            let size = si.size();
                            o.push(("v", J::I(size.sign_extend(bits) as i128)));
                        } else {
                            o.push(("v", J::U(bits)));
                        }
                    } else {
                        o.push(("ptr", J::Bool(true)));
                    }
                }
                ConstValue::ZeroSized => o.push(("zst", J::Bool(true))),
                ConstValue::Slice { .. } => {
                    if let Some(bytes) = val.try_get_slice_bytes_for_diagnostics(tcx) {
                        match std::str::from_utf8(bytes) {
                            Ok(st) if matches!(t.kind(), ty::Ref(_, inner, _) if inner.is_str()) => {
                                o.push(("str", s(st)))
                            }
                            _ => o.push((
                                "bytes",
                                J::A(bytes.iter().map(|b| J::U(*b as u128)).collect()),
                            )),
                        }
                    }
                }
                ConstValue::Indirect { .. } => {
                    o.push(("indirect", J::Bool(true)));
                    o.push(("dbg", s(with_no_trimmed_paths!(format!("{}", c)))));
                }
            },
            Err(_) => o.push(("evalerr", J::Bool(true))),
        }
        J::O(o)
    }

    fn fn_ref(&self, owner: LocalDefId, d: DefId, args: GenericArgsRef<'tcx>) -> J {
        let tcx = self.tcx;
        let mut o = vec![("n", s(path(tcx, d))), ("a", self.args(args))];
        if let Some(tr) = tcx.trait_of_assoc(d) {
            o.push(("trait", s(path(tcx, tr))));
        }
        if let Some(im) = tcx.impl_of_assoc(d) {
            o.push(("impl_self", self.ty(tcx.type_of(im).instantiate_identity().skip_norm_wip())));
            if let Some(tr) = tcx.impl_opt_trait_ref(im) {
                let tr = tr.instantiate_identity().skip_norm_wip();
                o.push(("impl_trait", s(path(tcx, tr.def_id))));
                o.push(("impl_trait_args", self.args(tr.args)));
            }
        }
        o.push(("name", s(tcx.item_name(d).to_string())));
        // Resolution of trait methods to impl methods.
        if matches!(tcx.def_kind(d), DefKind::Fn | DefKind::AssocFn) {
            let env = TypingEnv::non_body_analysis(tcx, owner);
            let r = std::panic::catch_unwind(std::panic::AssertUnwindSafe(|| {
                Instance::try_resolve(tcx, env, d, args)
            }));
            if let Ok(Ok(Some(inst))) = r {
                let rd = inst.def_id();
                let kind = match inst.def {
                    ty::InstanceKind::Item(_) => "item",
                    ty::InstanceKind::Virtual(..) => "virtual",
                    ty::InstanceKind::Intrinsic(_) => "intrinsic",
                    _ => "shim",
                };
                let mut r = vec![
                    ("n", s(path(tcx, rd))),
                    ("a", self.args(inst.args)),
                    ("kind", s(kind)),
                ];
                if let Some(im) = tcx.impl_of_assoc(rd) {
                    r.push((
                        "impl_self",
                        self.ty(tcx.type_of(im).instantiate_identity().skip_norm_wip()),
                    ));
                    if let Some(tr) = tcx.impl_opt_trait_ref(im) {
                        let tr = tr.instantiate_identity().skip_norm_wip();
                        r.push(("impl_trait", s(path(tcx, tr.def_id))));
                        r.push(("impl_trait_args", self.args(tr.args)));
                    }
                }
                o.push(("res", J::O(r)));
            }
        }
        J::O(o)
    }

    fn operand(&self, owner: LocalDefId, body: &Body<'tcx>, op: &Operand<'tcx>) -> J {
        match op {
            Operand::Copy(p) => J::O(vec![("c", self.place(body, p))]),
            Operand::Move(p) => J::O(vec![("m", self.place(body, p))]),
            Operand::Constant(c) => J::O(vec![("k", self.const_val(owner, &c.const_))]),
            #[allow(unreachable_patterns)]
            _ => J::O(vec![("other", s(format!("{:?}", op)))]),
        }
    }

    fn rvalue(&self, owner: LocalDefId, body: &Body<'tcx>, rv: &Rvalue<'tcx>) -> J {
        let tcx = self.tcx;
        match rv {
            Rvalue::Use(op, ..) => J::O(vec![("r", s("use")), ("o", self.operand(owner, body, op))]),
            Rvalue::Repeat(op, n) => J::O(vec![
                ("r", s("repeat")),
                ("o", self.operand(owner, body, op)),
                ("n", self.ty_const(*n)),
            ]),
            Rvalue::Ref(_, bk, p) => J::O(vec![
                ("r", s("ref")),
                ("mut", J::Bool(matches!(bk, BorrowKind::Mut { .. }))),
                ("fake", J::Bool(matches!(bk, BorrowKind::Fake(_)))),
                ("p", self.place(body, p)),
            ]),
            Rvalue::RawPtr(_, p) => J::O(vec![("r", s("rawptr")), ("p", self.place(body, p))]),
            Rvalue::Cast(kind, op, t) => {
                let k = match kind {
                    CastKind::IntToInt => "IntToInt".to_string(),
                    CastKind::PointerCoercion(pc, _) => format!("PointerCoercion:{:?}", pc),
                    CastKind::Transmute => "Transmute".to_string(),
                    CastKind::PtrToPtr => "PtrToPtr".to_string(),
                    other => format!("{:?}", other),
                };
                J::O(vec![
                    ("r", s("cast")),
                    ("kind", s(k)),
                    ("o", self.operand(owner, body, op)),
                    ("ty", self.ty(*t)),
                    ("from", self.ty(op.ty(&body.local_decls, tcx))),
                ])
            }
            Rvalue::BinaryOp(op, ab) => J::O(vec![
                ("r", s("bin")),
                ("op", s(format!("{:?}", op))),
                ("a", self.operand(owner, body, &ab.0)),
                ("b", self.operand(owner, body, &ab.1)),
                ("ty", self.ty(ab.0.ty(&body.local_decls, tcx))),
            ]),
            Rvalue::UnaryOp(op, a) => J::O(vec![
                ("r", s("un")),
                ("op", s(format!("{:?}", op))),
                ("a", self.operand(owner, body, a)),
            ]),
            Rvalue::Discriminant(p) => {
                let pty = p.ty(&body.local_decls, tcx).ty;
                J::O(vec![("r", s("discr")), ("p", self.place(body, p)), ("of", self.ty(pty))])
            }
            Rvalue::Aggregate(kind, ops) => {
                let mut o = vec![("r", s("agg"))];
                match &**kind {
                    AggregateKind::Array(t) => {
                        o.push(("kind", s("array")));
                        o.push(("ty", self.ty(*t)));
                    }
                    AggregateKind::Tuple => o.push(("kind", s("tuple"))),
                    AggregateKind::Adt(d, vi, args, _, active) => {
                        o.push(("kind", s("adt")));
                        o.push(("n", s(path(tcx, *d))));
                        o.push(("a", self.args(args)));
                        o.push(("variant", J::U(vi.as_u32() as u128)));
                        let adt = tcx.adt_def(*d);
                        let v = adt.variant(*vi);
                        o.push(("vname", s(v.name.to_string())));
                        let names: Vec<J> = match active {
                            Some(f) => vec![s(v.fields[*f].name.to_string())],
                            None => v.fields.iter().map(|f| s(f.name.to_string())).collect(),
                        };
                        o.push(("fields", J::A(names)));
                    }
                    AggregateKind::Closure(d, _) => {
                        o.push(("kind", s("closure")));
                        o.push(("n", s(path(tcx, *d))));
                    }
                    AggregateKind::Coroutine(d, _) => {
                        o.push(("kind", s("coroutine")));
                        o.push(("n", s(path(tcx, *d))));
                    }
                    AggregateKind::CoroutineClosure(d, _) => {
                        o.push(("kind", s("coroutine_closure")));
                        o.push(("n", s(path(tcx, *d))));
                    }
                    AggregateKind::RawPtr(..) => o.push(("kind", s("rawptr"))),
                }
                o.push(("ops", J::A(ops.iter().map(|x| self.operand(owner, body, x)).collect())));
                J::O(o)
            }
            Rvalue::CopyForDeref(p) => J::O(vec![("r", s("cfd")), ("p", self.place(body, p))]),
            other => J::O(vec![
                ("r", s("other")),
                ("s", s(with_no_trimmed_paths!(format!("{:?}", other)))),
            ]),
        }
    }

    fn bb(&self, b: BasicBlock) -> J {
        J::U(b.as_u32() as u128)
    }

    fn unwind(&self, u: &UnwindAction) -> J {
        match u {
            UnwindAction::Cleanup(b) => self.bb(*b),
            _ => J::Null,
        }
    }

    fn terminator(&self, owner: LocalDefId, body: &Body<'tcx>, t: &mir::Terminator<'tcx>) -> J {
        let tcx = self.tcx;
        let mut o: Vec<(&'static str, J)> = vec![];
        match &t.kind {
            TerminatorKind::Goto { target } => {
                o.push(("t", s("goto")));
                o.push(("to", self.bb(*target)));
            }
            TerminatorKind::SwitchInt { discr, targets } => {
                o.push(("t", s("switch")));
                o.push(("d", self.operand(owner, body, discr)));
                o.push(("dty", self.ty(discr.ty(&body.local_decls, tcx))));
                let mut v = vec![];
                for (val, bb) in targets.iter() {
                    v.push(J::A(vec![J::U(val), self.bb(bb)]));
                }
                o.push(("targets", J::A(v)));
                o.push(("else", self.bb(targets.otherwise())));
            }
            TerminatorKind::UnwindResume => o.push(("t", s("resume"))),
            TerminatorKind::UnwindTerminate(_) => o.push(("t", s("terminate"))),
            TerminatorKind::Return => o.push(("t", s("return"))),
            TerminatorKind::Unreachable => o.push(("t", s("unreachable"))),
            TerminatorKind::Drop { place, target, unwind, .. } => {
                o.push(("t", s("drop")));
                o.push(("p", self.place(body, place)));
                o.push(("to", self.bb(*target)));
                o.push(("unwind", self.unwind(unwind)));
            }
            TerminatorKind::Call { func, args, destination, target, unwind, fn_span, .. } => {
                o.push(("t", s("call")));
                match func {
                    Operand::Constant(c) => {
                        if let ty::FnDef(d, ga) = c.const_.ty().kind() {
                            o.push(("f", self.fn_ref(owner, *d, ga)));
                        } else {
                            o.push(("fop", self.operand(owner, body, func)));
                        }
                    }
                    _ => {
                        o.push(("fop", self.operand(owner, body, func)));
                        o.push(("fty", self.ty(func.ty(&body.local_decls, tcx))));
                    }
                }
                o.push((
                    "args",
                    J::A(args.iter().map(|a| self.operand(owner, body, &a.node)).collect()),
                ));
                o.push(("dest", self.place(body, destination)));
                o.push(("to", target.map(|b| self.bb(b)).unwrap_or(J::Null)));
                o.push(("unwind", self.unwind(unwind)));
                let fs = self.span(*fn_span);
                for (k, v) in fs {
                    if k == "sp" {
                        o.push(("fn_sp", v));
                    }
                }
            }
            TerminatorKind::TailCall { .. } => o.push(("t", s("tailcall"))),
            TerminatorKind::Assert { cond, expected, msg, target, unwind } => {
                o.push(("t", s("assert")));
                o.push(("cond", self.operand(owner, body, cond)));
                o.push(("expected", J::Bool(*expected)));
                match &**msg {
                    AssertKind::BoundsCheck { len, index } => {
                        o.push(("kind", s("BoundsCheck")));
                        o.push((
                            "ops",
                            J::A(vec![
                                self.operand(owner, body, len),
                                self.operand(owner, body, index),
                            ]),
                        ));
                    }
                    AssertKind::Overflow(op, a, b) => {
                        o.push(("kind", s("Overflow")));
                        o.push(("op", s(format!("{:?}", op))));
                        o.push((
                            "ops",
                            J::A(vec![self.operand(owner, body, a), self.operand(owner, body, b)]),
                        ));
                        o.push(("ty", self.ty(a.ty(&body.local_decls, tcx))));
                    }
                    AssertKind::OverflowNeg(a) => {
                        o.push(("kind", s("OverflowNeg")));
                        o.push(("ops", J::A(vec![self.operand(owner, body, a)])));
                    }
                    AssertKind::DivisionByZero(a) => {
                        o.push(("kind", s("DivisionByZero")));
                        o.push(("ops", J::A(vec![self.operand(owner, body, a)])));
                    }
                    AssertKind::RemainderByZero(a) => {
                        o.push(("kind", s("RemainderByZero")));
                        o.push(("ops", J::A(vec![self.operand(owner, body, a)])));
                    }
                    other => {
                        o.push(("kind", s("Other")));
                        o.push(("s", s(format!("{:?}", other))));
                    }
                }
                o.push(("to", self.bb(*target)));
                o.push(("unwind", self.unwind(unwind)));
            }
            TerminatorKind::Yield { value, resume, resume_arg, drop } => {
                o.push(("t", s("yield")));
                o.push(("v", self.operand(owner, body, value)));
                o.push(("resume", self.bb(*resume)));
                o.push(("resume_arg", self.place(body, resume_arg)));
                o.push(("drop", drop.map(|b| self.bb(b)).unwrap_or(J::Null)));
            }
            TerminatorKind::CoroutineDrop => o.push(("t", s("coroutinedrop"))),
            TerminatorKind::FalseEdge { real_target, imaginary_target } => {
                o.push(("t", s("falseedge")));
                o.push(("to", self.bb(*real_target)));
                o.push(("imag", self.bb(*imaginary_target)));
            }
            TerminatorKind::FalseUnwind { real_target, unwind } => {
                o.push(("t", s("falseunwind")));
                o.push(("to", self.bb(*real_target)));
                o.push(("unwind", self.unwind(unwind)));
            }
            TerminatorKind::InlineAsm { .. } => o.push(("t", s("asm"))),
        }
        for kv in self.span(t.source_info.span) {
            o.push(kv);
        }
        J::O(o)
    }

    fn body(&self, def: LocalDefId, body: &Body<'tcx>) -> J {
        let tcx = self.tcx;
        let did = def.to_def_id();
        let mut o = vec![("id", s(path(tcx, did)))];
        let kind = tcx.def_kind(did);
        o.push(("defkind", s(format!("{:?}", kind))));
        // names of the type / const generic parameters in substitution order (parents first, lifetimes
        // skipped - the same convention as `args`): lets the analyses instantiate a generic helper at a call
        {
            let g = tcx.generics_of(did);
            let mut names = vec![];
            for i in 0..g.count() {
                let p = g.param_at(i, tcx);
                if !matches!(p.kind, ty::GenericParamDefKind::Lifetime) {
                    names.push(s(p.name.to_string()));
                }
            }
            o.push(("generics", J::A(names)));
        }
        if let Some(ck) = tcx.coroutine_kind(did) {
            o.push(("coroutine_kind", s(format!("{:?}", ck))));
        }
        // Enclosing item chain
        let parent = tcx.local_parent(def);
        o.push(("parent", s(path(tcx, parent.to_def_id()))));
        // nearest enclosing non-closure item
        let base = tcx.typeck_root_def_id(did);
        o.push(("root", s(path(tcx, base))));
        if matches!(tcx.def_kind(base), DefKind::AssocFn | DefKind::AssocConst { .. }) {
            if let Some(im) = tcx.impl_of_assoc(base) {
                o.push(("impl_self", self.ty(tcx.type_of(im).instantiate_identity().skip_norm_wip())));
                if let Some(tr) = tcx.impl_opt_trait_ref(im) {
                    let tr = tr.instantiate_identity().skip_norm_wip();
                    o.push(("impl_trait", s(path(tcx, tr.def_id))));
                    o.push(("impl_trait_args", self.args(tr.args)));
                }
            } else if let Some(tr) = tcx.trait_of_assoc(base) {
                o.push(("in_trait", s(path(tcx, tr))));
            }
            o.push(("name", s(tcx.item_name(base).to_string())));
        } else if matches!(tcx.def_kind(base), DefKind::Fn) {
            o.push(("name", s(tcx.item_name(base).to_string())));
        }
        if matches!(tcx.def_kind(base), DefKind::Fn | DefKind::AssocFn) {
            o.push(("vis", s(format!("{:?}", tcx.visibility(base)))));
        }
        // cfg(test) / #[test] detection is left to the consumer (by file + module path).
        for kv in self.span(body.span) {
            o.push(kv);
        }
        o.push(("arg_count", J::U(body.arg_count as u128)));
        // locals
        let mut names: Vec<Option<String>> = vec![None; body.local_decls.len()];
        for vdi in &body.var_debug_info {
            if let mir::VarDebugInfoContents::Place(p) = &vdi.value {
                if p.projection.is_empty() {
                    names[p.local.as_usize()] = Some(vdi.name.to_string());
                }
            }
        }
        let mut locals = vec![];
        for (l, decl) in body.local_decls.iter_enumerated() {
            let mut lo = vec![("ty", self.ty(decl.ty))];
            if let Some(n) = &names[l.as_usize()] {
                lo.push(("name", s(n.clone())));
            }
            if decl.is_user_variable() {
                lo.push(("user", J::Bool(true)));
            }
            locals.push(J::O(lo));
        }
        o.push(("locals", J::A(locals)));
        // upvar debug info (closure captures)
        let mut upv = vec![];
        for vdi in &body.var_debug_info {
            if let mir::VarDebugInfoContents::Place(p) = &vdi.value {
                if !p.projection.is_empty() {
                    upv.push(J::O(vec![
                        ("name", s(vdi.name.to_string())),
                        ("p", self.place(body, p)),
                    ]));
                }
            }
        }
        o.push(("upvars", J::A(upv)));
        // blocks
        let mut blocks = vec![];
        for (_bb, data) in body.basic_blocks.iter_enumerated() {
            let mut stmts = vec![];
            for st in &data.statements {
                match &st.kind {
                    StatementKind::Assign(b) => {
                        let (p, rv) = &**b;
                        let mut so = vec![
                            ("s", s("assign")),
                            ("p", self.place(body, p)),
                            ("rv", self.rvalue(def, body, rv)),
                        ];
                        for kv in self.span(st.source_info.span) {
                            so.push(kv);
                        }
                        stmts.push(J::O(so));
                    }
                    StatementKind::SetDiscriminant { place, variant_index } => {
                        stmts.push(J::O(vec![
                            ("s", s("setdiscr")),
                            ("p", self.place(body, place)),
                            ("variant", J::U(variant_index.as_u32() as u128)),
                        ]));
                    }
                    StatementKind::Intrinsic(i) => {
                        stmts.push(J::O(vec![
                            ("s", s("intrinsic")),
                            ("dbg", s(format!("{:?}", i))),
                        ]));
                    }
                    StatementKind::StorageDead(l) => {
                        stmts.push(J::O(vec![
                            ("s", s("dead")),
                            ("l", J::U(l.as_u32() as u128)),
                        ]));
                    }
                    _ => {}
                }
            }
            let term = self.terminator(def, body, data.terminator());
            blocks.push(J::O(vec![
                ("cleanup", J::Bool(data.is_cleanup)),
                ("stmts", J::A(stmts)),
                ("term", term),
            ]));
        }
        o.push(("blocks", J::A(blocks)));
        J::O(o)
    }

    fn adts(&self) -> J {
        let tcx = self.tcx;
        let mut v = vec![];
        for id in tcx.hir_free_items() {
            let did = id.owner_id.to_def_id();
            let kind = tcx.def_kind(did);
            if !matches!(kind, DefKind::Struct | DefKind::Enum) {
                continue;
            }
            let adt = tcx.adt_def(did);
            let mut variants = vec![];
            for (vi, var) in adt.variants().iter_enumerated() {
                let mut fields = vec![];
                for f in var.fields.iter() {
                    let fty = tcx.type_of(f.did).instantiate_identity().skip_norm_wip();
                    fields.push(J::O(vec![
                        ("name", s(f.name.to_string())),
                        ("ty", self.ty(fty)),
                        ("vis", s(format!("{:?}", f.vis))),
                    ]));
                }
                let mut vo = vec![("name", s(var.name.to_string())), ("fields", J::A(fields))];
                if adt.is_enum() {
                    let d = adt.discriminant_for_variant(tcx, vi);
                    vo.push(("discr", J::U(d.val)));
                }
                variants.push(J::O(vo));
            }
            let mut o = vec![
                ("n", s(path(tcx, did))),
                ("kind", s(if adt.is_enum() { "enum" } else { "struct" })),
                ("vis", s(format!("{:?}", tcx.visibility(did)))),
                ("variants", J::A(variants)),
            ];
            for kv in self.span(tcx.def_span(did)) {
                o.push(kv);
            }
            v.push(J::O(o));
        }
        J::A(v)
    }

    fn impls(&self) -> J {
        let tcx = self.tcx;
        let mut v = vec![];
        for id in tcx.hir_free_items() {
            let did = id.owner_id.to_def_id();
            if !matches!(tcx.def_kind(did), DefKind::Impl { .. }) {
                continue;
            }
            let mut o = vec![
                ("self", self.ty(tcx.type_of(did).instantiate_identity().skip_norm_wip())),
            ];
            if let Some(tr) = tcx.impl_opt_trait_ref(did) {
                let tr = tr.instantiate_identity().skip_norm_wip();
                o.push(("trait", s(path(tcx, tr.def_id))));
                o.push(("trait_args", self.args(tr.args)));
            }
            let generics = tcx.generics_of(did);
            o.push((
                "generics",
                J::A(generics.own_params.iter().map(|p| s(p.name.to_string())).collect()),
            ));
            let mut consts = vec![];
            let mut types = vec![];
            let mut fns = vec![];
            for item in tcx.associated_items(did).in_definition_order() {
                match item.kind {
                    ty::AssocKind::Const { name, .. } => {
                        let mut co = vec![("name", s(name.to_string()))];
                        if generics.own_params.is_empty() || true {
                            if let Ok(val) = tcx.const_eval_poly(item.def_id) {
                                if let ConstValue::Scalar(sc) = val {
                                    if let Ok(si) = sc.try_to_scalar_int() {
                                        co.push(("v", J::U(si.to_bits_unchecked())));
                                    }
                                }
                            }
                        }
                        consts.push(J::O(co));
                    }
                    ty::AssocKind::Type { .. } => {
                        let t = tcx.type_of(item.def_id).instantiate_identity().skip_norm_wip();
                        types.push(J::O(vec![
                            ("name", s(item.name().to_string())),
                            ("ty", self.ty(t)),
                        ]));
                    }
                    ty::AssocKind::Fn { name, .. } => fns.push(s(name.to_string())),
                }
            }
            o.push(("consts", J::A(consts)));
            o.push(("types", J::A(types)));
            o.push(("fns", J::A(fns)));
            for kv in self.span(tcx.def_span(did)) {
                o.push(kv);
            }
            v.push(J::O(o));
        }
        J::A(v)
    }
}

struct UnsafeFinder {
    spans: Vec<Span>,
}

impl<'v> Visitor<'v> for UnsafeFinder {
    fn visit_block(&mut self, b: &'v rustc_hir::Block<'v>) {
        if let rustc_hir::BlockCheckMode::UnsafeBlock(rustc_hir::UnsafeSource::UserProvided) = b.rules {
            self.spans.push(b.span);
        }
        intravisit::walk_block(self, b)
    }
}

struct Dump;

impl Callbacks for Dump {
    fn after_expansion<'tcx>(&mut self, _c: &Compiler, tcx: TyCtxt<'tcx>) -> Compilation {
        let out_dir = match std::env::var("ZVT_MIRDUMP_OUT") {
            Ok(d) => d,
            Err(_) => return Compilation::Continue,
        };
        let nonce = std::env::var("ZVT_MIRDUMP_NONCE").unwrap_or_default();
        let cx = Cx { tcx };
        let crate_name = tcx.crate_name(LOCAL_CRATE).to_string();
        let is_test = tcx.sess.opts.test;
        let crate_types: Vec<String> =
            tcx.crate_types().iter().map(|c| format!("{:?}", c)).collect();

        // Pass 1: clone every built body before anything can steal it.
        let mut bodies: Vec<(LocalDefId, Body<'tcx>)> = vec![];
        let mut stolen: Vec<String> = vec![];
        let mut owners: Vec<LocalDefId> = tcx.hir_body_owners().collect();
        // Constants first: building a function body may const-evaluate (and thereby
        // steal) the body of a constant it mentions in a pattern or type.
        owners.sort_by_key(|d| {
            !matches!(
                tcx.def_kind(*d),
                DefKind::Const { .. } | DefKind::AssocConst { .. } | DefKind::Static { .. }
            )
        });
        for def in owners {
            let kind = tcx.def_kind(def);
            // Skip anonymous/inline consts in types etc.; keep fns, closures, consts, statics.
            if matches!(kind, DefKind::AnonConst | DefKind::InlineConst) {
                continue;
            }
            let steal = tcx.mir_built(def);
            if steal.is_stolen() {
                stolen.push(path(tcx, def.to_def_id()));
                continue;
            }
            let b = steal.borrow().clone();
            bodies.push((def, b));
        }
        // `unsafe` written in this crate: blocks (user provided) and unsafe fns.
        let mut unsafe_sites: Vec<J> = vec![];
        for def in tcx.hir_body_owners() {
            let kind = tcx.def_kind(def);
            if matches!(kind, DefKind::AnonConst | DefKind::InlineConst) {
                continue;
            }
            if let Some(body) = tcx.hir_maybe_body_owned_by(def) {
                let mut f = UnsafeFinder { spans: vec![] };
                f.visit_expr(body.value);
                for sp in f.spans {
                    let mut o = vec![("kind", s("block")), ("in", s(path(tcx, def.to_def_id())))];
                    for kv in cx.span(sp) {
                        o.push(kv);
                    }
                    unsafe_sites.push(J::O(o));
                }
            }
            if matches!(kind, DefKind::Fn | DefKind::AssocFn) {
                let sig = tcx.fn_sig(def).skip_binder();
                if !sig.safety().is_safe() {
                    let mut o = vec![("kind", s("fn")), ("in", s(path(tcx, def.to_def_id())))];
                    for kv in cx.span(tcx.def_span(def)) {
                        o.push(kv);
                    }
                    unsafe_sites.push(J::O(o));
                }
            }
        }
        // Pass 2: emit.
        let mut jb = vec![];
        for (def, b) in &bodies {
            jb.push(cx.body(*def, b));
        }
        let root = J::O(vec![
            ("crate", s(crate_name.clone())),
            ("test", J::Bool(is_test)),
            ("crate_types", J::A(crate_types.iter().map(|c| s(c.clone())).collect())),
            ("nonce", s(nonce)),
            ("ptr_width", J::U(tcx.data_layout.pointer_size().bits() as u128)),
            ("overflow_checks", J::Bool(tcx.sess.overflow_checks())),
            ("n_bodies", J::U(bodies.len() as u128)),
            ("stolen", J::A(stolen.iter().map(|c| s(c.clone())).collect())),
            ("unsafe", J::A(unsafe_sites)),
            ("adts", cx.adts()),
            ("impls", cx.impls()),
            ("bodies", J::A(jb)),
        ]);
        let mut text = String::with_capacity(1 << 20);
        root.write(&mut text);
        let kind = if is_test {
            "test".to_string()
        } else {
            crate_types.first().cloned().unwrap_or_default().to_lowercase()
        };
        let id = tcx.stable_crate_id(LOCAL_CRATE).as_u64();
        let fname = format!("{}/{}.{}.{:016x}.json", out_dir, crate_name, kind, id);
        let tmp = format!("{}.tmp{}", fname, std::process::id());
        std::fs::write(&tmp, text).expect("zvt-mirdump: cannot write fact file");
        std::fs::rename(&tmp, &fname).expect("zvt-mirdump: cannot rename fact file");
        Compilation::Continue
    }
}

fn main() {
    let mut args: Vec<String> = std::env::args().collect();
    // As RUSTC_WORKSPACE_WRAPPER we are invoked as `<driver> <rustc> <args...>`.
    if args.len() > 1 && (args[1].ends_with("rustc") || args[1].contains("/rustc")) {
        args.remove(1);
    }
    let mut cb = Dump;
    rustc_driver::run_compiler(&args, &mut cb);
}
