#!/bin/bash
# usage: confirm_r4.sh <Cxx> <a|b>
# Confirms a round-4 contributed change in its scratch worktree /var/tmp/wt4/<Cxx> from /var/tmp/seeds4/<Cxx>-<x>/:
# (1) with the change the 34 existing tests pass, (2) the demo FAILS with the change, (3) the demo PASSES without.
# On success the change is copied to /verif/seeded/<Cxx>-<name>/ (patch.diff, demo.rs, meta.agent.json, confirm.log).
c=$1; x=$2; R=${ROUND:-4}; wt=/var/tmp/wt$R/$c; sd=/var/tmp/seeds$R/$c-$x
export CARGO_NET_OFFLINE=true CARGO_TARGET_DIR=$wt/target
cd $wt || exit 9
[ -z "$(git status --short)" ] || { echo "worktree not clean"; git status --short | head; git checkout -- . ; git clean -fdq -e target; }
name=$(python3 -c "import json;print(json.load(open('$sd/meta.json'))['name'])")
loc=$(python3 -c "import json;print(json.load(open('$sd/meta.json'))['demo_location'])")
args=$(python3 -c "import json;print(json.load(open('$sd/meta.json'))['demo_cargo_args'])")
log=$sd/confirm.log
{
echo "### seed $c-$name  worktree $wt  $(date -u)"
git apply $sd/patch.diff || { echo "PATCH DOES NOT APPLY"; exit 8; }
git status --short | head
echo "--- (1) existing suite with the change"
cargo test --workspace --no-fail-fast --offline 2>&1 | grep -E "^test result|FAILED|^error" 
echo "--- (2) demo with the change (must FAIL)"
mkdir -p $(dirname $loc); cp $sd/demo.rs $loc
cargo test --offline $args 2>&1 | grep -E "^test |^test result|panicked at|^error" | head -20
echo "--- (3) demo without the change (must PASS)"
git apply -R $sd/patch.diff
cargo test --offline $args 2>&1 | grep -E "^test |^test result|panicked at|^error" | head -20
rm -f $loc
git checkout -- . ; git clean -fdq -e target
echo "### done"
} > $log 2>&1
tail -25 $log
