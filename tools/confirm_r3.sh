#!/bin/bash
# usage: confirm_r2.sh <Cxx> <seed-id>  -- confirm a round-2 seed in /tmp/wt3_<Cxx> using its meta.json
c=$1; id=$2; wt=/tmp/wt3_$c
loc=$(python3 -c "import json;print(json.load(open('$wt/seeded/meta.json'))['demo_location'])")
args=$(python3 -c "import json;print(json.load(open('$wt/seeded/meta.json'))['demo_cargo_args'])")
/verif/tools/confirm_seed.sh $id $wt demo.rs $loc $args > /var/tmp/confirm_$id.out 2>&1
