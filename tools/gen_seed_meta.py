#!/usr/bin/env python3
"""Write seeded/<id>/meta.json from the contributor's meta.agent.json, my confirmation log and the
latest selftest results (which checks report the change)."""
import json, os, re
V = "/verif"
import sys
res = json.load(open(sys.argv[1] if len(sys.argv) > 1 else V + "/selftest/RESULTS.json")).get("seeds", {})
for s in sorted(os.listdir(V + "/seeded")):
    d = os.path.join(V, "seeded", s)
    if not os.path.isfile(d + "/patch.diff"):
        continue
    a = json.load(open(d + "/meta.agent.json"))
    log = open(d + "/confirm.log").read()
    def part(k):
        m = re.search(r"--- \(%d\).*?\n(.*?)(?=\n--- \(|\n### done)" % k, log, re.S)
        return m.group(1) if m else ""
    suite = sum(int(x) for x in re.findall(r"test result: ok\. (\d+) passed", part(1)))
    suite_failed = len(re.findall(r"FAILED|^error", part(1), re.M))
    with_change = re.findall(r"test result: (\w+)\. (\d+) passed; (\d+) failed", part(2))
    without = re.findall(r"test result: (\w+)\. (\d+) passed; (\d+) failed", part(3))
    demo = [f for f in os.listdir(d) if f.endswith(".rs") or f == "demo.diff"]
    r = res.get(s, {})
    meta = {
        "id": s,
        "property": a["property"],
        "breaks": a["summary"],
        "needs_to_manifest": a["needs"],
        "files": {"change": "patch.diff", "demonstration": demo, "demonstration_goes_to": a.get("demo_location"),
                  "demonstration_cargo_args": a.get("demo_cargo_args")},
        "origin": "fresh sub-agent given only the property text and a scratch git worktree of /repo",
        "what_i_ran": [
            "tools/confirm_seed.sh in the contributor's scratch worktree: (1) cargo test --workspace --no-fail-fast --offline with the change, "
            "(2) the demonstration with the change, (3) the demonstration with the change reverted (git apply -R)",
            "tools/selftest.py --seeds-only [--owning-only]: patch applied to a scratch copy of /repo (never to /repo), facts rebuilt, the owning check (or all 20) run; repeated with ZVT_LOWER=1 (second representation only)",
        ],
        "confirmed": {
            "existing_suite_with_change": {"passed": suite, "failed_or_errors": suite_failed},
            "demonstration_with_change": [{"result": x[0], "passed": int(x[1]), "failed": int(x[2])} for x in with_change],
            "demonstration_without_change": [{"result": x[0], "passed": int(x[1]), "failed": int(x[2])} for x in without],
        },
        "detected_by": {c: v["rules"] for c, v in sorted(r.get("reported_by", {}).items())},
        "detected_by_owning_property": a["property"] in r.get("reported_by", {}),
        "declared_not_detected": os.path.exists(d + "/NOT_DETECTED.md"),
    }
    json.dump(meta, open(d + "/meta.json", "w"), indent=1)
    print(s, meta["confirmed"]["existing_suite_with_change"], meta["detected_by_owning_property"], sorted(meta["detected_by"]))
