#!/usr/bin/env python3
"""Merge the shard outputs of a parallel self-test run (sh-ns*.json: seeds, normal mode; sh-ls*.json: seeds, ZVT_LOWER=1;
sh-rf*.json: refactorings; sh-mu*.json: mutants) into the files tools/assemble_results.py reads.

usage: tools/merge_shards.py <dir>      (writes norm-seeds.json, lower-seeds.json, ref-all.json, norm-mut.json there)
"""
import glob
import json
import os
import sys


def merge(d, pat, key, out):
    res = {key: {}}
    for f in sorted(glob.glob(os.path.join(d, pat))):
        r = json.load(open(f))
        res[key].update(r.get(key) or {})
        res.setdefault("started", r.get("started"))
    if res[key]:
        json.dump(res, open(os.path.join(d, out), "w"))
    return len(res[key]), sorted(k for k, v in res[key].items() if v.get("status") != "ok")


def main():
    d = sys.argv[1] if len(sys.argv) > 1 else "/var/tmp"
    for pat, key, out in (("sh-ns*.json", "seeds", "norm-seeds.json"), ("sh-ls*.json", "seeds", "lower-seeds.json"),
                          ("sh-rf*.json", "refactors", "ref-all.json"), ("sh-mu*.json", "mutants", "norm-mut.json"),
                          ("sh-lm*.json", "mutants", "lower-mut.json"), ("sh-ss*.json", "seeds", "scr-seeds.json"),
                          ("sh-sm*.json", "mutants", "scr-mut.json")):
        n, bad = merge(d, pat, key, out)
        if n:
            print(out, n, "not met:", bad)


if __name__ == "__main__":
    main()
