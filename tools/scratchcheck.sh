#!/bin/bash
# usage: tools/scratchcheck.sh <ABSOLUTE patch> <check ids...>
# Apply a patch to a scratch copy of /repo (never /repo itself), run the given checks against it, remove the copy.
set -u
P="$1"; shift
D=$(mktemp -d /var/tmp/zvt-sc-XXXXXX)
rsync -a --exclude target --exclude .git /repo/ "$D/repo/"
( cd "$D/repo" && patch -p1 -s -i "$P" ) || { echo "patch does not apply"; rm -rf "$D"; exit 2; }
export ZVT_REPO="$D/repo" ZVT_EVIDENCE_DIR="$D/ev" CARGO_NET_OFFLINE=true
cd "$(dirname "$0")/.."
python3 analyses/facts.py >/dev/null 2>"$D/facts.err" || { echo "does not compile"; tail -20 "$D/facts.err"; rm -rf "$D"; exit 3; }
for c in "$@"; do ./check "$c"; done
rm -rf "$D"
