#!/bin/bash
# usage: seedcheck.sh <patch.diff> <check ids comma separated>  -- applies patch to /repo, runs checks, reverts
p=$1; ids=$2
cd /repo && git diff --quiet || { echo "repo dirty"; exit 9; }
git -C /repo apply "$p" || { echo "patch does not apply"; exit 8; }
git -C /repo diff --stat | tail -1
for id in ${ids//,/ }; do (cd /verif && ./check $id 2>&1 | grep -E "^(VIOLATION|KNOWN|  (rule|instance|message)|C[0-9]+:)" | cut -c1-400 | head -${MAXL:-10}); done
git -C /repo checkout -- .
