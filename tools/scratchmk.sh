#!/bin/bash
# usage: tools/scratchmk.sh <ABSOLUTE patch>  -> prints the scratch dir (caller removes it); facts are built
P="$1"
D=$(mktemp -d /var/tmp/zvt-sc-XXXXXX)
rsync -a --exclude target --exclude .git /repo/ "$D/repo/"
( cd "$D/repo" && patch -p1 -s -i "$P" ) || { echo "patch does not apply" >&2; rm -rf "$D"; exit 2; }
cd "$(dirname "$0")/.."
ZVT_REPO="$D/repo" ZVT_EVIDENCE_DIR="$D/ev" CARGO_NET_OFFLINE=true python3 analyses/facts.py >/dev/null 2>"$D/facts.err" || { echo "does not compile" >&2; }
echo "$D"
