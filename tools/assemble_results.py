#!/usr/bin/env python3
"""Assemble selftest/RESULTS.json from the partial runs of tools/selftest.py (which are run as separate background jobs
from snapshot copies: mutants / seeds / refactors, in the normal mode, second-representation-only and renamed-locals modes).

usage: tools/assemble_results.py <dir with the run files>
  expects  norm-mut.json norm-seeds.json ref-all.json        (normal mode)
  optional lower-mut.json lower-seeds.json                   (ZVT_LOWER=1)
           scr-mut.json scr-seeds.json                       (ZVT_SCRAMBLE=1)
           fix-*.json                                        (re-runs of single entries after a correction: override)
"""
import glob
import json
import os
import sys
import time

V = os.path.dirname(os.path.dirname(os.path.abspath(__file__)))


def load(p):
    return json.load(open(p)) if os.path.exists(p) else None


def main():
    d = sys.argv[1] if len(sys.argv) > 1 else "/var/tmp"
    out = {"mutants": {}, "seeds": {}, "refactors": {}}
    for name, key in (("norm-mut.json", "mutants"), ("norm-seeds.json", "seeds"), ("ref-all.json", "refactors")):
        r = load(os.path.join(d, name))
        if r:
            out[key].update(r.get(key, {}))
            out.setdefault("started", r.get("started"))
    fixes = []
    for f in sorted(glob.glob(os.path.join(d, "fix-*.json"))):
        r = load(f)
        for key in ("mutants", "seeds", "refactors"):
            for k, v in (r.get(key) or {}).items():
                if k in out[key] and out[key][k].get("status") != v.get("status"):
                    fixes.append("%s: %s -> %s" % (k, out[key][k].get("status"), v.get("status")))
                if k in out[key] or key != "refactors" or True:
                    out[key][k] = v
    for mode, env in (("lower", "ZVT_LOWER=1 (second representation only)"), ("scr", "ZVT_SCRAMBLE=1 (every local / parameter / captured variable renamed)")):
        m, s_ = load(os.path.join(d, mode + "-mut.json")), load(os.path.join(d, mode + "-seeds.json"))
        if m or s_:
            ent = {"what": "the same mutants and seeds under " + env + ": no rule becomes vacuous / name-dependent there"}
            if m:
                ent["mutants"] = len(m["mutants"])
                ent["mutants_not_met"] = sorted(k for k, v in m["mutants"].items() if v.get("status") != "ok")
            if s_:
                ent["seeds"] = len(s_["seeds"])
                ent["seeds_not_met"] = sorted(k for k, v in s_["seeds"].items() if v.get("status") != "ok")
            out["mode_" + mode] = ent
    bad = sorted(k for key in ("mutants", "seeds", "refactors") for k, v in out[key].items() if v.get("status") != "ok")
    out["not_met"] = bad
    out["all_expectations_met"] = not bad
    out["finished"] = time.strftime("%Y-%m-%dT%H:%M:%SZ", time.gmtime())
    out["counts"] = {k: len(out[k]) for k in ("mutants", "seeds", "refactors")}
    if fixes:
        out["note"] = "entries re-run after a correction made during the run: " + "; ".join(fixes)[:1500]
    json.dump(out, open(os.path.join(V, "selftest", "RESULTS.json"), "w"), indent=1, sort_keys=True)
    print(out["counts"], "not met:", bad)


if __name__ == "__main__":
    main()
