#!/usr/bin/env python3
"""Regenerates /verif/MANIFEST.json from the table below (kept in one place so the
manifest is valid at every commit)."""
import importlib
import json
import os
import sys

VERIF = os.path.dirname(os.path.dirname(os.path.abspath(__file__)))
sys.path.insert(0, os.path.join(VERIF, "analyses"))

TB = ("Trusted: rustc type checking / MIR construction / const evaluation, the zvt-mirdump "
      "driver's faithful dump, std/tokio/async-stream/chrono/hex/yore behaving as documented, "
      "and the hand-authored tables under /verif/spec.")

# property -> (category, design_ref, technique, level text, level note)
CHECKS = {
    "C03": ("translation_validation", "5.3",
            "layout-table extraction from MIR of derive output, compared with an independent spec table",
            "Every shipped struct's encoder and decoder layout (field, tag, prefix style, value encoding, "
            "cardinality, order), every command's control field and the APDU framing are extracted from the "
            "resolved program and compared with independent tables; a change made to encoder and decoder "
            "together (invisible to round-trip tests) is caught; the command tag is [CLASS, INSTR] big-endian, text is CP437, no decoder takes a legal field value for \"absent\"; the hand-written date/time container is 1F0E 04 <4 BCD> 1F0F 03 <3 BCD>; a packet decoder hands back the framing call's result unchanged; a Fixed<N> BCD field's integer type holds 2N digits; LLVAR digit rules (shared with C16-d/f). All 55 structs / 162 rows, no sampling.",
            "Decides the declared layout, not the bytes each leaf encoding produces per value. " + TB),
    "C01": ("other", "5.1",
            "sibling agreement of extracted encoder/decoder tables, derives-from data flow, inverse-primitive pairing, frame-order rules over MIR",
            "Decides five structural necessary conditions of the round trip for all 55 structs and every leaf encoding "
            "reachable from a shipped row: writer/reader table agreement, no input-dropping encoder, inverse primitive "
            "pairing, frame order (the returned bytes read as tag || L(len(payload)) || payload on every path), distinct tags, presence never decided by a field value, one text code page and no trimming beyond trailing NULs, a repeated-field reader that keeps only elements that consumed input, length-style agreement (shared with C16). Equality decode(encode(v)) == v per value is NOT decided (value arithmetic).",
            "Necessary conditions only; the value-level inverse (BCD digit arithmetic, padding/trimming) is out of static reach. " + TB),
    "C13": ("other", "5.13",
            "CFG/dominance and constant-agreement rules on the tag-dispatch loop of every generated decoder",
            "For every generated decoder (55 structs, 122 tagged rows): one dispatch switch in one loop, per-arm constants agree "
            "(duplicate set, DuplicateTag error, required-set removal, expected tag), required set == mandatory rows, Ok only "
            "under is_empty(required), MissingRequiredTags derives from the whole set, unknown-tag arm inert and leaving the loop. What a nested field did not read comes back to the loop as remainder (framing clauses shared with C14-a/b). "
            "Holds for all inputs and all permutations because it is a property of the flow graph.",
            TB),
    "C15": ("proof", "5.15",
            "decision-tree extraction: symbolic path enumeration over the two header bytes of each zvt_parse body",
            "For each of the 17 reply enums the parser's decision tree partitions all 65,536 control fields by construction; "
            "every variant-producing leaf is exactly the single point (CLASS, INSTR) of its payload type, decodes the whole "
            "input with that type's own decoder and wraps its result; everything else and every short input is Err; table == spec; no panic site in the parsers or the helpers they call. Per command, the reply set (control fields) of the enum its sequence parses equals the set the specification lists for that command, whatever the enum is called, and each reply is decoded with a packet type whose layout rows are those of the type the reply table names for it (C15/reply-payload).",
            "Complete for the property's quantifier (control fields); body contents are delegated to the payload decoder (C02/C03). " + TB),
    "C05": ("model_checking", "5.5",
            "event-graph projection of coroutine MIR + protocol-monitor product construction over all paths",
            "All 18 sequences (12 distinct stream bodies): a protocol monitor is run over the event graph of the real coroutine "
            "body as a product construction, which covers every reply script of every length: command once, ack outcome examined, "
            "exactly one answer per packet before yield and before the next read, end exactly after the first final packet "
            "(final set by control field from the spec tables), no transport call afterwards; read_packet is the only reader of the source and follows the 3 / +2 / body plan (C04-a/b shared).",
            "The explored object is the implementation's own control-flow graph (no hand-written model). Assumes futures act only "
            "when awaited and async-stream's yield/`?` expansion. " + TB),
    "C06": ("model_checking", "5.6",
            "same event graphs/monitor restricted to failure discipline + helper rules in io.rs",
            "On every err edge of every fallible step in every stream body: exactly one Err item then end, no write/read after, "
            "no Err item without failure, every transport outcome examined; the acknowledgement parser accepts exactly 80 00 and "
            "read_packet propagates parse errors. All paths, all fault positions.",
            "Fault kinds are abstracted to 'the step returned Err'; that each fault kind makes the step return Err is C02/C04/C15. " + TB),
    "C07": ("other", "5.7",
            "guard/edge-dominance, who-may-write and provenance rules over the async client bodies (MIR)",
            "Per-call facts that make the token map a refinement of the open pre-authorisations: guards dominate all terminal traffic, "
            "refusals return the documented error without traffic, the map is private and mutated only at the three allowed sites, what is "
            "recorded is (token, StatusInformation.receipt_no of this reservation), reversals act on exactly the removed receipt number; the retry wrapper's await budget is per packet (C10-a shared), so a live exchange is not re-issued, and its failure bookkeeping is per attempt (C09-a/b shared): an attempt the terminal answered completely is final. A step that empties the whole map is reachable only on the is_empty() edge; once the token is removed no return is reachable around the reversal exchange.",
            "The induction over call histories from these per-call facts is argued in DESIGN.md, not mechanised. " + TB),
    "C08": ("other", "5.8",
            "expression-tree comparison of request/summary construction with a wiring table; callee identity of saturating_sub",
            "The released amount is usize::saturating_sub(configured amount, final amount as usize) by resolved callee and operand "
            "provenance; every request field and every summary field is wired from the source the specification names; the BCD fields of the packets of the exchange are wide enough for their digits (C03-a/bcd-width shared).",
            "Numeric formatting of date/time strings and the terminal's ledger are not decided. " + TB),
    "C18": ("other", "5.18",
            "edge-dominance of CardInfo constructor sites; operation-set/constant/order rules on the uid variable's definitions",
            "Bank only under (!subs.is_empty() && subs[0].application_id.is_some()), MembershipCard only under subs.is_empty(); the "
            "membership id derives from tlv.uuid through exactly upper-case, [len-14..] and strip_prefix(\"000000\") under len > 14; "
            "abort handling as C20; retry-wrapper bookkeeping (C09-a/b), read_packet framing (C04-b/d) and the BER-TLV length forms of the status containers (C16-b) as necessary conditions.", TB),
    "C19": ("other", "5.19",
            "edge-dominance / cut-reachability / call-order rules and who-may-call tables over the client",
            "end_of_day is only reachable on the true edge of is_empty(transactions); every successful commit/cancel that leaves the map "
            "empty has passed end_of_day (failure propagated); clean-up (query FFFF, reverse what is reported) dominates the End-of-Day "
            "exchange; EndOfDay is started nowhere else; the token map is written only by its owners, an entry is recorded only once its reservation has succeeded and removed by its own token (C07 clauses shared); End-of-Day refusals are reported (C20 arm rules).", TB),
    "C20": ("other", "5.20",
            "abort-arm region analysis: return classification and provenance of the error from the packet's result code",
            "For all nine client functions the Abort arm of the reply match never returns Ok, never continues the loop, and its error is "
            "built from the packet's `error` byte; the three documented translations sit on the edge of exactly their code; success is only returned after a reply that ends the exchange (or the end of the stream), never from the arm of an intermediate reply; nested client operations propagate, and behind the Err edge of any test of a nested operation's result no Ok is returned; the names of the result codes (discriminants of ErrorMessages) are those of the specification table. The reply streams of the eight exchanges the client runs end exactly at the specified final packets (protocol-monitor clauses shared with C05). Covers all 256 "
            "codes because no other code is inspected.", TB),
    "C09": ("other", "5.9",
            "path-sensitive product analysis (error flag x ghost failure bit x connection slot) of the retry coroutine; dominance chain in connect; who-may-call",
            "Reset on failure and keep on success are decided over all paths of into_stream_with_retry in product with the code's own "
            "error flag; reconnect happens only when the slot is empty and only connect's Ok value is stored; in connect every path to "
            "Ok passes registration (configured password/currency, items `?`-checked), system info and the equal edge of the "
            "case-insensitive serial comparison; Sequence::into_stream is called nowhere else; the slot is private. From the Err side of every test of a registration / system-info item neither the next exchange nor Ok is reachable. The command stream is never started in a product state in which the connection slot is empty.", TB),
    "C10": ("other", "5.10",
            "await-type analysis (generic argument of IntoFuture::into_future) + budget provenance + interval discharge of config arithmetic",
            "Every await point of the client is classified; raw transport awaits are accepted only inside a function whose every call "
            "is the direct argument of tokio::time::timeout; retry streams derive from take(n>0); timeouts are positive; arithmetic on "
            "configuration values cannot overflow; a deadline bounding an await inside a reply loop is computed inside that loop. The retry stream is assembled from constant constructors only (repeat / throttle(const) / take(const)): a computed pause is not bounded by this rule and is reported. A reconnect failure that is not reported cannot reach the exchange (C09-b/stream-on-live-connection shared: it would end the call in a panic, neither result nor error). All 29 await points, both budgets, every Overflow site with config operands.",
            "Wall-clock values and tokio's timer are trusted; 'finite' not 'how long'. " + TB),
    "C02": ("proof", "5.2",
            "site enumeration over the decode-path call-graph closure + guard-fact/interval/contract discharge of every panic, overflow, truncation, allocation site; loop termination classification",
            "Every site that can panic, wrap, truncate or allocate on the decode path (246 bodies: all decoders, length styles, framing, 55 "
            "generated decoders, 17 parsers, read_packet) is an obligation discharged from edge-dominating guards, std summaries, interval "
            "arithmetic, suffix contracts K1-K3 (verified on every impl) and two loop lemmas; every loop has a termination argument. For all "
            "inputs at once; found the Tlv 0x82, BCD overflow, date/time and untagged-Vec defects (now fixed).",
            "Sound but incomplete prover: anything not understood stays undischarged. Totality of std/chrono/hex/yore callees is trusted. " + TB),
    "C14": ("other", "5.14",
            "expression-equality rules on the framing code, suffix-contract verification on every decoder impl, unsafe-site facts, layout nesting rule",
            "The value decoder sees exactly &payload[..length]; the remainder is exactly &payload[length - r.len()..]; every decoder returns "
            "a suffix of its input and no unsafe code exists in the library crates; no greedy row precedes another row; packet decoders delegate their framing to deserialize_tagged (shared with C03-c); the length comes from the prefix only. Where a decoder reads a length prefix itself, the announced length is used (compared or taken as a slice bound), not dropped.",
            "Non-interference of the bytes beyond the announced length follows from Rust's slice semantics once these hold. " + TB),
    "C04": ("other", "5.4",
            "who-may-call on the byte source, dominance/edge rules and prover-backed buffer-length equalities in read_packet, header-constant agreement across three sites",
            "Only read_exact ever reads the source, and no buffering / limiting adaptor (BufReader, take, split ..) is put around it; the read plan is header(3) / +2 on the 0xFF edge / exactly the announced body (length "
            "equality proved over Vec-length versions); every read failure returns Err without parsing; header constants, byte order and "
            "offsets agree between Adpu::serialize, Adpu::deserialize, read_packet and the specification. A receive routine of another shape (helpers, a separate header array, appended bytes) is decided by symbolic execution of its buffer operations on every path to the parser (bufsim): same plan, and the parser gets exactly the bytes read, in order.",
            "Chunking/Pending behaviour is tokio's read_exact contract (trusted); per-length byte equality is not decided. " + TB),
    "C16": ("other", "5.16",
            "decision-tree extraction (interval path enumeration) of writer and reader of each length style + constant/operand rules; C02 site rule on the readers",
            "Truncated prefixes are errors (all sites of the six readers discharged); BER and APDU switch points, markers, number of length "
            "bytes, byte order and data offsets agree between writer, reader and the specification; LLVAR uses exactly N base-10 digits with "
            "masks F0/0F on both sides; Fixed<N> requires and returns exactly N; no defined prefix is refused once all its bytes are there (256-value case split per reader); the length bytes are computed from the length by casts only. The LLVAR digit loop is left only when all N positions are written; a length style outside the table whose reader consumes no prefix writes none; a writer that builds its bytes by push/extend is read off the bytes it returns (bufsim).",
            "Arithmetic inside a form (k % 10, digit weights) is out of static reach and not claimed. " + TB),
    "C17": ("other", "5.17",
            "C02 site rule on the digit decoders, checked-arithmetic shape rule, inverse-primitive and constant-set agreement rules",
            "Digits that do not fit are an error (overflow sites discharged; accumulator only through checked ops whose None becomes Err); "
            "Default is LE and BigEndian BE for all ten integral pairs; two-byte tag pages {1F, FF} agree between writer, reader and spec; "
            "the FFFF receipt sentinel is routed to the same codec on both sides; hex/CP437 use inverse primitives, one code page, the whole input is decoded and only trailing NULs are trimmed; tag pages are decided by a 256-value case split, the writer by its symbolic output, and the reader refuses no tag whose bytes are all there. A BCD encoder that peels digits off a running value leaves its loop only at 0 (or after N positions with c^N > MAX of the type).",
            "Value-level round trips per value are not decided. " + TB),
    "C11": ("other", "5.11",
            "expression-provenance rules on the manifest and answer construction, constant-table distinctness, protocol monitor on the upload sequence",
            "The announced list has one entry per existing recognised file (id and path from one table row, size = seek(End(0)) of that file); "
            "every data request is answered with the requested id and offset and buf[..read_at(file_of(id), buf, offset)] with the configured "
            "block size; the five refusal points end the upload with one error and no write; the raw payload codec is the identity.",
            "Bit-identity with the disk content, short reads and the id table vs Feig's manual are not decided. " + TB),
    "C12": ("translation_validation", "5.12",
            "generated-program grid over the derive attribute grammar, type-checked with the real macro under the MIR driver; extracted encoder/decoder layouts compared with the generator's own description + C01-a/e, C13, C02-c rules per struct",
            "Quick: 150 generated structs (110 single-field grid points sampled by VERIF_SEED + 40 random structs up to 8 fields / depth 3); "
            "thorough: the full single-field grid (1311 structs) + 300 random structs. For each, encoder layout == declared layout == decoder "
            "layout, encoder/decoder agree, tag-loop rules, loop termination, suffix contract and control field; the generic repeated-field reader keeps an element only if it consumed input, the optional-field reader is total without a tag, the integral value codecs keep their byte order (shared with C17-b). A present optional field is written exactly as the field itself (no condition on the value or its encoding), an absent one writes nothing; the repeated-field writer hands its tag to every element. Programs are never executed.",
            "The quantifier over programs is sampled (quick) / bounded-exhaustive for single fields (thorough); value-level inverse not decided. " + TB),
}

NOT_YET = "check not yet built in this commit (under construction, see DESIGN.md section 10)"
NA = {}


def main():
    props = [json.loads(l)["id"] for l in open(os.path.join(VERIF, "properties.jsonl"))]
    checks = []
    for p in props:
        if p not in CHECKS:
            continue
        cat, ref, tech, text, note = CHECKS[p]
        checks.append({
            "property_id": p,
            "quick_cmd": "./check %s --tier quick" % p,
            "thorough_cmd": "./check %s --tier thorough" % p,
            "evidence_file": "/verif/evidence/%s.json" % p,
            "replay_cmd_template": "./check %s --explain {path}" % p,
            "engine": "zvt-mirdump + analyses/rules_%s.py" % p.lower(),
            "level_claimed": {"category": cat, "text": text, "design_ref": "DESIGN.md section " + ref},
            "level_note": note,
            "technique": "static analysis: " + tech,
        })
    na = [{"property_id": p, "reason": NA.get(p, NOT_YET)} for p in props if p not in CHECKS]
    m = {
        "version": 1,
        "setup_cmd": "python3 analyses/facts.py --setup",
        "hooks": {
            "guard": "zvt_verif",
            "enable": "none needed: the static analysis reads /repo's working tree as is; no hook commits exist",
            "baseline_off_cmd": "cd /repo && cargo test --workspace --no-fail-fast --offline",
            "source_commits": [],
            "add_only": True,
        },
        "engines": [
            {"name": "zvt-mirdump", "path": "driver/", "serves_properties": sorted(CHECKS),
             "kind_free_text": "rustc_private driver (RUSTC_WORKSPACE_WRAPPER under cargo +nightly check) dumping "
                               "mir_built of every body + ADT/impl facts as JSON"},
            {"name": "rule engines", "path": "analyses/", "serves_properties": sorted(CHECKS),
             "kind_free_text": "python3 (stdlib) analyses over the dumped MIR: CFG/dominators, def-use tracing, "
                               "layout extraction, event graphs, site discharge"},
        ],
        "checks": checks,
        "notes": "Static analysis only; see DESIGN.md. ./check <id> rebuilds facts from /repo's current working "
                 "tree (cached by content hash of the tree + driver + flags). A check that reports something on the MIR as built "
                 "re-examines the whole property on a second, equally faithful representation (Option/Result combinators lowered to "
                 "switches, jump threading on known constants; DESIGN.md 11.5b) and reports only if that pass is not clean either.",
        "not_applicable": na,
    }
    with open(os.path.join(VERIF, "MANIFEST.json"), "w") as fh:
        json.dump(m, fh, indent=1)
    print("checks:", [c["property_id"] for c in checks], " not claimed:", [n["property_id"] for n in na])


if __name__ == "__main__":
    main()
