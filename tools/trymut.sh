#!/bin/bash
# usage: trymut.sh <check-id[,id..]> <file-in-repo> <sed-expression>   -- applies, runs checks, restores.
ids=$1; f=$2; expr=$3
cd /repo && git diff --quiet || { echo "repo dirty"; exit 9; }
sed -i "$expr" "/repo/$f"
git -C /repo diff --stat | tail -1
if git -C /repo diff --quiet; then echo "NO CHANGE MADE"; exit 8; fi
for id in ${ids//,/ }; do (cd /verif && ./check $id 2>&1 | grep -E "^(VIOLATION|KNOWN|  (rule|instance|message)|C[0-9]+:)" | head -${MAXL:-14}); done
git -C /repo checkout -- .
