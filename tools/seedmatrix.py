#!/usr/bin/env python3
"""Apply every seeded change under /verif/seeded/<id>/patch.diff to /repo in turn, run every
check (quick tier) against it, revert, and record which checks report it.
Writes /verif/seeded/MATRIX.json.  /repo must be clean; it is restored after every seed."""
import json, os, subprocess, sys, concurrent.futures as cf
V = "/verif"
ids = ["C%02d" % i for i in range(1, 21)]
seeds = sorted(d for d in os.listdir(V + "/seeded") if os.path.isfile(V + "/seeded/%s/patch.diff" % d))
if len(sys.argv) > 1:
    seeds = [s for s in seeds if s in sys.argv[1:]]
out = {}
mp = V + "/seeded/MATRIX.json"
if os.path.exists(mp):
    out = json.load(open(mp))
def run(cid):
    r = subprocess.run(["./check", cid], cwd=V, stdout=subprocess.PIPE, stderr=subprocess.STDOUT, text=True)
    rules = []
    lines = r.stdout.splitlines()
    for i, l in enumerate(lines):
        if l.startswith("  rule"):
            rules.append(l.split(":", 1)[1].strip())
    return cid, r.returncode, sorted(set(rules)), sum(1 for l in lines if l.startswith("VIOLATION"))
for s in seeds:
    assert subprocess.run(["git", "-C", "/repo", "diff", "--quiet"]).returncode == 0, "repo dirty"
    subprocess.check_call(["git", "-C", "/repo", "apply", V + "/seeded/%s/patch.diff" % s])
    try:
        subprocess.run(["python3", "analyses/facts.py"], cwd=V, stdout=subprocess.DEVNULL, stderr=subprocess.DEVNULL)
        with cf.ThreadPoolExecutor(8) as ex:
            res = list(ex.map(run, ids))
    finally:
        subprocess.check_call(["git", "-C", "/repo", "checkout", "--", "."])
    out[s] = {c: {"exit": rc, "violations": n, "rules": rules} for c, rc, rules, n in res if rc != 0}
    print(s, {c: v["rules"][:3] for c, v in out[s].items()}, flush=True)
    json.dump(out, open(mp, "w"), indent=1, sort_keys=True)
