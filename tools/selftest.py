#!/usr/bin/env python3
"""Checker self-test ("test the checker both ways").

Copies /repo's current tree to a scratch directory *outside* /repo and /verif, and for every
entry of selftest/mutants.py (one-hunk, content-addressed edits) and every seeded change under
seeded/<id>/patch.diff:

  * applies it to the scratch copy only,
  * rebuilds the facts from the scratch copy (ZVT_REPO=<scratch>) and runs the checks,
  * records which rules report it, restores the scratch file.

"fire" mutants / seeds must be reported by at least one owning check; "silent" mutants
(behaviour-preserving refactors) must be reported by none of the 20 checks.  The scratch copy
and the redirected evidence are removed at the end.  Results: selftest/RESULTS.json.

usage: tools/selftest.py [--all-checks] [--only name,name,...] [--seeds-only|--mutants-only|--refactors-only]
(selftest/refactors/*.diff: behaviour-preserving patches contributed by sub-agents; no check may report anything)
Exit status 0 iff every expectation is met (stale / non-compiling mutants are listed and do
not count as met).
"""
import concurrent.futures as cf
import json
import os
import shutil
import subprocess
import sys
import tempfile
import time

V = os.path.dirname(os.path.dirname(os.path.abspath(__file__)))
sys.path.insert(0, os.path.join(V, "selftest"))
REPO = os.environ.get("ZVT_REPO", "/repo")
IDS = ["C%02d" % i for i in range(1, 21)]


def sh(cmd, env=None, cwd=V):
    return subprocess.run(cmd, cwd=cwd, env=env, stdout=subprocess.PIPE, stderr=subprocess.STDOUT, text=True)


def run_check(cid, env):
    r = sh(["./check", cid], env=env)
    rules = sorted({l.split(":", 1)[1].strip() for l in r.stdout.splitlines() if l.startswith("  rule")})
    nviol = sum(1 for l in r.stdout.splitlines() if l.startswith("VIOLATION"))
    engine = any("analysable|engine" in l or "engine error" in l for l in r.stdout.splitlines())
    return cid, r.returncode, rules, nviol, engine, r.stdout[-600:] if r.returncode not in (0, 1) else ""


def evaluate(env, checks):
    f = sh(["python3", "analyses/facts.py"], env=env)
    if f.returncode != 0:
        return None, f.stdout[-1500:]
    with cf.ThreadPoolExecutor(8) as ex:
        res = list(ex.map(lambda c: run_check(c, env), checks))
    out = {}
    for cid, rc, rules, n, engine, tail in res:
        if rc != 0:
            out[cid] = {"exit": rc, "violations": n, "rules": rules}
            if tail:
                out[cid]["tail"] = tail
    return out, ""


def main():
    args = sys.argv[1:]
    all_checks = "--all-checks" in args
    only = None
    if "--only" in args:
        only = set(args[args.index("--only") + 1].split(","))
    from mutants import MUTANTS
    for_pid = args[args.index("--for") + 1] if "--for" in args else None
    out_path = args[args.index("--out") + 1] if "--out" in args else None
    scratch = tempfile.mkdtemp(prefix="zvt-selftest-", dir=os.environ.get("ZVT_SCRATCH_PARENT", "/var/tmp"))
    evdir = os.path.join(scratch, "_evidence")
    tree = os.path.join(scratch, "repo")
    results = {"mutants": {}, "seeds": {}, "started": time.strftime("%Y-%m-%dT%H:%M:%SZ", time.gmtime())}
    rp = out_path or os.path.join(V, "selftest", "RESULTS.json")
    if only and os.path.exists(rp):
        old = json.load(open(rp))
        results["mutants"] = old.get("mutants", {})
        results["seeds"] = old.get("seeds", {})
        results["refactors"] = old.get("refactors", {})
    ok_all = True
    try:
        subprocess.check_call(["rsync", "-a", "--exclude", "target", "--exclude", ".git", REPO + "/", tree + "/"])
        pristine = os.path.join(scratch, "pristine")
        subprocess.check_call(["rsync", "-a", tree + "/", pristine + "/"])

        def restore():
            # exact restore (a reversed patch can leave rejects / created files behind)
            subprocess.check_call(["rsync", "-a", "--delete", "--checksum", pristine + "/", tree + "/"])
        env = dict(os.environ, ZVT_REPO=tree, ZVT_EVIDENCE_DIR=evdir, CARGO_NET_OFFLINE="true")
        # baseline: the scratch copy itself must be clean
        if not only and not for_pid:
            base, err = evaluate(env, IDS)
            results["baseline"] = base if base is not None else {"error": err}
            print("baseline", results["baseline"], flush=True)
            if base is None or base:
                ok_all = False
        if "--seeds-only" not in args and "--refactors-only" not in args:
            for m in MUTANTS:
                name, kind, owners, path, old, new = m[:6]
                nth = m[6] if len(m) > 6 else None
                if only and name not in only:
                    continue
                if for_pid and not (kind == "fire" and for_pid in owners):
                    continue
                fp = os.path.join(tree, path)
                src = open(fp).read()
                cnt = src.count(old)
                if cnt == 0 or (nth is None and cnt != 1) or (nth is not None and cnt < nth):
                    results["mutants"][name] = {"status": "stale", "occurrences": cnt}
                    print(name, "STALE anchor (occurrences=%d)" % cnt, flush=True)
                    ok_all = False
                    continue
                k = nth or 1
                idx = -1
                for _ in range(k):
                    idx = src.index(old, idx + 1)
                open(fp, "w").write(src[:idx] + new + src[idx + len(old):])
                try:
                    checks = [for_pid] if for_pid else (IDS if (kind == "silent" or all_checks) else owners)
                    res, err = evaluate(env, checks)
                finally:
                    open(fp, "w").write(src)
                if res is None:
                    results["mutants"][name] = {"status": "does-not-compile", "error": err[-600:]}
                    print(name, "DOES NOT COMPILE", flush=True)
                    ok_all = False
                    continue
                fired = sorted(res)
                if for_pid:
                    met = for_pid in res and res[for_pid]["violations"] > 0
                elif kind == "fire":
                    met = any(c in res and res[c]["violations"] > 0 for c in owners)
                else:
                    met = not res
                status = "ok" if met else "UNMET"
                if for_pid and not met and len(owners) > 1:
                    # `owners` means "at least one of these checks reports it" (that is what the full run verifies); a single
                    # check of the list that stays silent is not a missed detection
                    status = "reported-by-another-owner %s" % [o for o in owners if o != for_pid]
                    met = True
                results["mutants"][name] = {"status": status, "kind": kind, "owners": owners,
                                            "file": path, "reported_by": res}
                ok_all = ok_all and met
                print(name, kind, "ok" if met else "UNMET", {c: v["rules"][:3] for c, v in res.items()}, flush=True)
                json.dump(results, open(rp, "w"), indent=1, sort_keys=True)
        if "--mutants-only" not in args and "--refactors-only" not in args:
            sd = os.path.join(V, "seeded")
            for s in sorted(os.listdir(sd)):
                pf = os.path.join(sd, s, "patch.diff")
                if not os.path.isfile(pf) or (only and s not in only):
                    continue
                meta = {}
                mp = os.path.join(sd, s, "meta.json")
                if os.path.exists(mp):
                    meta = json.load(open(mp))
                prop = meta.get("property") or s.split("-")[0]
                if for_pid and prop != for_pid:
                    continue
                a = sh(["git", "apply", "--unsafe-paths", "--directory", tree, pf], cwd="/")
                if a.returncode != 0:
                    a = sh(["patch", "-p1", "-s", "-i", pf], cwd=tree)
                if a.returncode != 0:
                    restore()
                    results["seeds"][s] = {"status": "stale", "error": a.stdout[-300:]}
                    print(s, "STALE patch", flush=True)
                    ok_all = False
                    continue
                try:
                    res, err = evaluate(env, [for_pid] if for_pid else ([prop] if "--owning-only" in args else IDS))
                finally:
                    restore()
                if res is None:
                    results["seeds"][s] = {"status": "does-not-compile", "error": err[-600:]}
                    ok_all = False
                    continue
                met = prop in res and res[prop]["violations"] > 0
                declared = os.path.exists(os.path.join(sd, s, "NOT_DETECTED.md"))
                if declared and not met:
                    # a confirmed change that is outside what the owning check decides (reason in NOT_DETECTED.md)
                    results["seeds"][s] = {"status": "ok", "declared_not_detected": True, "property": prop, "reported_by": res}
                    print(s, "not detected (declared, see NOT_DETECTED.md)", flush=True)
                    continue
                results["seeds"][s] = {"status": "ok" if met else "UNMET", "property": prop, "reported_by": res}
                ok_all = ok_all and met
                print(s, "ok" if met else "UNMET", {c: v["rules"][:3] for c, v in res.items()}, flush=True)
                json.dump(results, open(rp, "w"), indent=1, sort_keys=True)
        if ("--seeds-only" not in args and "--mutants-only" not in args or "--refactors-only" in args) and not for_pid:
            rd = os.path.join(V, "selftest", "refactors")
            results.setdefault("refactors", {})
            for s in sorted(os.listdir(rd)) if os.path.isdir(rd) else []:
                pf = os.path.join(rd, s)
                name = s[:-5]
                if not s.endswith(".diff") or (only and name not in only):
                    continue
                a = sh(["patch", "-p1", "-s", "-i", pf], cwd=tree)
                if a.returncode != 0:
                    restore()
                    results["refactors"][name] = {"status": "stale", "error": a.stdout[-300:]}
                    print(name, "STALE patch", flush=True)
                    ok_all = False
                    continue
                try:
                    res, err = evaluate(env, IDS)
                finally:
                    restore()
                if res is None:
                    results["refactors"][name] = {"status": "does-not-compile", "error": err[-600:]}
                    print(name, "DOES NOT COMPILE", flush=True)
                    ok_all = False
                    continue
                met = not res
                results["refactors"][name] = {"status": "ok" if met else "UNMET", "kind": "silent", "reported_by": res}
                ok_all = ok_all and met
                print(name, "silent", "ok" if met else "UNMET", {c: v["rules"][:3] for c, v in res.items()}, flush=True)
                json.dump(results, open(rp, "w"), indent=1, sort_keys=True)
    finally:
        shutil.rmtree(scratch, ignore_errors=True)
    results["finished"] = time.strftime("%Y-%m-%dT%H:%M:%SZ", time.gmtime())
    results["all_expectations_met"] = ok_all
    json.dump(results, open(rp, "w"), indent=1, sort_keys=True)
    n = len(results["mutants"]) + len(results["seeds"]) + len(results.get("refactors", {}))
    bad = [k for d in (results["mutants"], results["seeds"], results.get("refactors", {})) for k, v in d.items() if v["status"] != "ok"]
    print("selftest: %d cases, %d not met: %s" % (n, len(bad), bad))
    return 0 if ok_all else 1


if __name__ == "__main__":
    sys.exit(main())
