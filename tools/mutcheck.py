#!/usr/bin/env python3
"""usage: mutcheck.py <mutant-name> <checks,comma> [-- extra grep]  : apply one selftest mutant to /repo, run checks, restore."""
import sys, subprocess, os
sys.path.insert(0, "/verif/selftest")
from mutants import MUTANTS
name, ids = sys.argv[1], sys.argv[2].split(",")
m = [x for x in MUTANTS if x[0] == name][0]
path, old, new = m[3], m[4], m[5]
nth = m[6] if len(m) > 6 else 1
assert subprocess.run(["git", "-C", "/repo", "diff", "--quiet"]).returncode == 0, "repo dirty"
fp = "/repo/" + path
src = open(fp).read()
idx = -1
for _ in range(nth):
    idx = src.index(old, idx + 1)
open(fp, "w").write(src[:idx] + new + src[idx + len(old):])
try:
    for c in ids:
        r = subprocess.run(["./check", c], cwd="/verif", stdout=subprocess.PIPE, stderr=subprocess.STDOUT, text=True)
        lines = [l for l in r.stdout.splitlines() if l.startswith(("VIOLATION", "  rule", "  instance", "  message", "  site", c + ":", "Traceback", "  File"))]
        print("\n".join(l[:int(os.environ.get("W", "300"))] for l in lines[:int(os.environ.get("MAXL", "16"))]))
finally:
    subprocess.check_call(["git", "-C", "/repo", "checkout", "--", "."])
