#!/bin/bash
# usage: r4_process.sh <Cxx> <a|b>   confirm a round-4 change, file it under /verif/seeded/, run the owning check on a scratch copy
c=$1; x=$2; R=${ROUND:-4}; sd=/var/tmp/seeds$R/$c-$x
[ -f $sd/patch.diff ] || { echo "$c-$x: no patch"; exit 1; }
/verif/tools/confirm_r4.sh $c $x > /dev/null 2>&1
log=$sd/confirm.log
name=$(python3 -c "import json;print(json.load(open('$sd/meta.json'))['name'])")
s1=$(sed -n '/(1) existing/,/(2) demo/p' $log | grep -c "test result: ok")
f1=$(sed -n '/(1) existing/,/(2) demo/p' $log | grep -cE "FAILED|^error")
s2=$(sed -n '/(2) demo/,/(3) demo/p' $log | grep -cE "test result: FAILED|panicked|^error")
s3=$(sed -n '/(3) demo/,/### done/p' $log | grep -c "test result: ok")
f3=$(sed -n '/(3) demo/,/### done/p' $log | grep -cE "FAILED|^error")
verdict="CONFIRMED"
[ "$s1" -ge 4 ] && [ "$f1" -eq 0 ] && [ "$s2" -ge 1 ] && [ "$s3" -ge 1 ] && [ "$f3" -eq 0 ] || verdict="NOT-CONFIRMED(s1=$s1 f1=$f1 s2=$s2 s3=$s3 f3=$f3)"
echo "$c-$name: $verdict"
if [ "$verdict" = "CONFIRMED" ]; then
  dup=$(python3 - "$sd/patch.diff" <<'PY'
import sys, os, glob
def sig(p):
    return frozenset(l[1:].strip() for l in open(p, errors="replace") if l[:1] in "+-" and not l.startswith(("+++", "---")) and l[1:].strip() and not l[1:].strip().startswith("//"))
new = sig(sys.argv[1])
for f in glob.glob("/verif/seeded/*/patch.diff"):
    old = sig(f)
    if new and old and len(new & old) >= 0.8 * max(len(new), len(old)):
        print(os.path.basename(os.path.dirname(f))); break
PY
)
  if [ -n "$dup" ] && [ "$dup" != "$c-$name" ]; then echo "  DUPLICATE of $dup - not filed"; exit 0; fi
  d=/verif/seeded/$c-$name; [ -d $d ] && [ "$dup" != "$c-$name" ] && d=/verif/seeded/$c-$name-r$R; mkdir -p $d
  cp $sd/patch.diff $sd/demo.rs $d/; cp $sd/meta.json $d/meta.agent.json; cp $log $d/confirm.log
  /verif/tools/scratchcheck.sh $d/patch.diff $c 2>&1 | grep -E "^C[0-9]+:|  rule" | sort | uniq -c | head -8
fi
