#!/bin/bash
# usage: confirm_seed.sh <id> <worktree> <demo src (rel to worktree/seeded)> <demo dest (rel to worktree)> <cargo test args for the demo>
# Confirms: (1) with the change the 34 existing tests pass, (2) demo FAILS with the change, (3) demo PASSES without.
id=$1; wt=$2; demo=$3; dest=$4; shift 4; args="$@"
export CARGO_NET_OFFLINE=true CARGO_TARGET_DIR=$wt/target
cd $wt || exit 9
log=/verif/seeded/$id/confirm.log; mkdir -p /verif/seeded/$id
{
echo "### seed $id  worktree $wt  $(date -u)"
git -C $wt status --short | grep -v seeded | head
echo "--- (1) existing suite with the change"
cargo test --workspace --no-fail-fast --offline 2>&1 | grep -E "^test result|FAILED|^error" 
echo "--- (2) demo with the change (must FAIL)"
mkdir -p $(dirname $dest); cp seeded/$demo $dest
cargo test --offline $args 2>&1 | grep -E "^test |^test result|panicked at|^error" | head -20
echo "--- (3) demo without the change (must PASS)"
git apply -R seeded/patch.diff
cargo test --offline $args 2>&1 | grep -E "^test |^test result|panicked at|^error" | head -20
git apply seeded/patch.diff
rm -f $dest
echo "### done"
} > $log 2>&1
cp seeded/patch.diff /verif/seeded/$id/patch.diff
cp seeded/$demo /verif/seeded/$id/
cp seeded/meta.json /verif/seeded/$id/meta.agent.json
tail -30 $log
