// Demonstrations of the genuine defects found on the pinned tree (a03ba69) and repaired by the
// `fix:` commits in /repo.  Each test FAILS on a03ba69 and PASSES on the repaired tree.
// Run:  cp repro.rs <worktree>/zvt/tests/repro.rs && cargo test --offline -p zvt --test repro
// (not part of any registered check: the checks are static; this file documents the triage).
use std::panic::catch_unwind;
use zvt::{encoding, encoding::Encoding, length, length::Length, packets, Zvt, ZvtSerializer};

#[test]
fn f1_tlv_0x82_truncated() {
    let r = catch_unwind(|| length::Tlv::deserialize(&[0x82, 1]));
    assert!(r.is_ok(), "F1: Tlv::deserialize(82 01) panicked");
    assert!(r.unwrap().is_err());
}
#[test]
fn f2_bcd_overflow() {
    let r = catch_unwind(|| <encoding::Bcd as Encoding<u8>>::decode(&[0x99, 0x99]));
    assert!(r.is_ok(), "F2: Bcd::decode::<u8>(99 99) panicked");
    assert!(r.unwrap().is_err(), "F2: digits that do not fit must be an error");
}
#[test]
fn f2b_intermediate_status_overflow() {
    let r = catch_unwind(|| {
        packets::IntermediateStatusInformation::zvt_deserialize(&[0x04, 0xff, 0x03, 0x01, 0x99, 0x99])
    });
    assert!(r.is_ok(), "F2: packet decode panicked");
}
#[test]
fn f3_datetime_bad_date() {
    // 1f0e 04 20231345 (month 13) 1f0f 03 225655
    let b = [0x1f, 0x0e, 0x04, 0x20, 0x23, 0x13, 0x45, 0x1f, 0x0f, 0x03, 0x22, 0x56, 0x55];
    let r = catch_unwind(|| <encoding::Default as Encoding<chrono::NaiveDateTime>>::decode(&b));
    assert!(r.is_ok(), "F3: impossible date panicked");
    assert!(r.unwrap().is_err());
}
#[test]
fn f3_datetime_october() {
    let b = [0x1f, 0x0e, 0x04, 0x20, 0x23, 0x10, 0x05, 0x1f, 0x0f, 0x03, 0x22, 0x56, 0x55];
    let r = catch_unwind(|| <encoding::Default as Encoding<chrono::NaiveDateTime>>::decode(&b));
    assert!(r.is_ok(), "F3: October date panicked");
    let v = r.unwrap().unwrap().0;
    assert_eq!(v, chrono::NaiveDate::from_ymd_opt(2023, 10, 5).unwrap().and_hms_opt(22, 56, 55).unwrap());
}
#[test]
fn f4_datetime_roundtrip() {
    let v = chrono::NaiveDate::from_ymd_opt(2023, 4, 5).unwrap().and_hms_opt(22, 56, 55).unwrap();
    let b = <encoding::Default as Encoding<chrono::NaiveDateTime>>::encode(&v);
    assert_eq!(b, vec![0x1f, 0x0e, 0x04, 0x20, 0x23, 0x04, 0x05, 0x1f, 0x0f, 0x03, 0x22, 0x56, 0x55], "F4");
    let v2 = chrono::NaiveDate::from_ymd_opt(2023, 12, 1).unwrap().and_hms_opt(0, 5, 9).unwrap();
    let b2 = <encoding::Default as Encoding<chrono::NaiveDateTime>>::encode(&v2);
    assert_eq!(<encoding::Default as Encoding<chrono::NaiveDateTime>>::decode(&b2).unwrap().0, v2);
    assert_eq!(b2.len(), 13);
}
#[test]
fn f5_utf8_roundtrip() {
    let s = "GER-APP-v2.0.9".to_string();
    let b = <encoding::Utf8 as Encoding<String>>::encode(&s);
    assert_eq!(b, s.as_bytes(), "F5");
}
#[test]
fn f8_untagged_vec_of_strings_terminates() {
    #[derive(Zvt, PartialEq, Debug)]
    struct V {
        a: u8,
        items: Vec<String>,
    }
    let t = std::thread::spawn(|| {
        let _ = V::zvt_deserialize(&[1, 65, 66]);
    });
    std::thread::sleep(std::time::Duration::from_millis(1500));
    assert!(t.is_finished(), "F8: untagged Vec<String> decode does not terminate");
}
